/-
  Line-protocol driver for the executable model: one operation per input line, one result
  line per operation.  The C++ harness (harness/*.cc) answers the same lines by calling the
  real code; check/ diffs the two streams.
-/
import Cctz.Model.Ck
import Cctz.Model.Civil
import Cctz.Model.Fixed
import Cctz.Model.Posix
import Cctz.Model.Tz
import Cctz.Model.Split
import Cctz.Model.SubQuery
import Cctz.Model.Loader
import Cctz.Model.Format
import Cctz.Model.Parse
import Cctz.Model.TableCheck
import Cctz.Model.TameCheck
import Cctz.Proofs.SeamCheck

open Cctz

structure ZEntry where
  zone : Tz.Zone
  btHint : Nat := 0
  mtHint : Nat := 0

structure DState where
  zones : List (String × ZEntry) := []
  failed : List String := []
  files : List (Bytes × Bytes) := []     -- the file system the `resolve` op sees: path ↦ contents

def DState.find (st : DState) (id : String) : Option ZEntry := (st.zones.find? (·.1 == id)).map (·.2)
def DState.set (st : DState) (id : String) (e : ZEntry) : DState :=
  { st with zones := (id, e) :: st.zones.filter (·.1 != id) }

def flagStr (f : Flags) : String :=
  "UB" ++ (if f.ovf then " ovf" else "") ++ (if f.oob then " oob" else "")
       ++ (if f.unset then " unset" else "") ++ (if f.fuel then " fuel" else "")

def showCk (x : Ck α) (f : α → String) : String :=
  if x.flags.any then flagStr x.flags else f x.val

def showFields (f : Fields) : String :=
  s!"{f.y} {f.m} {f.d} {f.hh} {f.mm} {f.ss}"

def parseTag (s : String) : Option Tag :=
  match s with
  | "second" => some .second | "minute" => some .minute | "hour" => some .hour
  | "day" => some .day | "month" => some .month | "year" => some .year
  | _ => none

def ints (l : List String) : Option (List Int) := l.mapM String.toInt?

def civilOp (toks : List String) : Option String :=
  match toks with
  | "new" :: t :: rest => do
      let t ← parseTag t
      match ← ints rest with
      | [y, m, d, hh, mm, ss] => some (showCk (Civil.civilNew t y m d hh mm ss) showFields)
      | _ => none
  | "conv" :: t :: u :: rest => do
      let t ← parseTag t
      let u ← parseTag u
      match ← ints rest with
      | [y, m, d, hh, mm, ss] =>
        some (showCk (do let a ← Civil.civilNew u y m d hh mm ss; pure (Civil.align t a)) showFields)
      | _ => none
  | "add" :: t :: rest => do
      let t ← parseTag t
      match ← ints rest with
      | [y, m, d, hh, mm, ss, n] =>
        some (showCk (do let a ← Civil.civilNew t y m d hh mm ss; Civil.civilAdd t a n) showFields)
      | _ => none
  | "sub" :: t :: rest => do
      let t ← parseTag t
      match ← ints rest with
      | [y, m, d, hh, mm, ss, n] =>
        some (showCk (do let a ← Civil.civilNew t y m d hh mm ss; Civil.civilSub t a n) showFields)
      | _ => none
  | "chain" :: t :: rest => do
      let t ← parseTag t
      match ← ints rest with
      | [y, m, d, hh, mm, ss, n, k] =>
        some (showCk (do
          let a ← Civil.civilNew t y m d hh mm ss
          let x ← Civil.civilAdd t a n
          let r1 ← Civil.civilAdd t x k
          let r2 ← Civil.civilSub t x n
          let b ← Civil.civilAdd t a k
          let df ← Civil.difference t x b
          pure (r1, r2, df)) fun (r1, r2, df) => s!"{showFields r1} | {showFields r2} | {df}")
      | _ => none
  | "diff" :: t :: rest => do
      let t ← parseTag t
      match ← ints rest with
      | [y, m, d, hh, mm, ss, y2, m2, d2, hh2, mm2, ss2] =>
        some (showCk (do
          let a ← Civil.civilNew t y m d hh mm ss
          let b ← Civil.civilNew t y2 m2 d2 hh2 mm2 ss2
          Civil.difference t a b) toString)
      | _ => none
  | "cmp" :: t1 :: t2 :: rest => do
      let t1 ← parseTag t1
      let t2 ← parseTag t2
      match ← ints rest with
      | [y, m, d, hh, mm, ss, y2, m2, d2, hh2, mm2, ss2] =>
        some (showCk (do
          let a ← Civil.civilNew t1 y m d hh mm ss
          let b ← Civil.civilNew t2 y2 m2 d2 hh2 mm2 ss2
          pure (a, b)) fun (a, b) =>
            s!"{b2i (Civil.lt a b)} {b2i (Civil.le a b)} {b2i (Civil.eq a b)}")
      | _ => none
  | "wd" :: rest => do
      match ← ints rest with
      | [y, m, d, hh, mm, ss] =>
        some (showCk (do let a ← Civil.civilNew .second y m d hh mm ss; Civil.getWeekday a) toString)
      | _ => none
  | "yd" :: rest => do
      match ← ints rest with
      | [y, m, d, hh, mm, ss] =>
        some (showCk (do let a ← Civil.civilNew .second y m d hh mm ss; Civil.getYearday a) toString)
      | _ => none
  | "nwd" :: rest => do
      match ← ints rest with
      | [y, m, d, w] =>
        some (showCk (do let a ← Civil.civilNew .day y m d 0 0 0; Civil.nextWeekday a w) showFields)
      | _ => none
  | "pwd" :: rest => do
      match ← ints rest with
      | [y, m, d, w] =>
        some (showCk (do let a ← Civil.civilNew .day y m d 0 0 0; Civil.prevWeekday a w) showFields)
      | _ => none
  | "nwi" :: rest => do
      match ← ints rest with
      | [y, m, d, w] =>
        some (showCk (do
          let a ← Civil.civilNew .day y m d 0 0 0
          let b ← Civil.civilSub .day a 1
          let r ← Civil.nextWeekday b w
          let g ← Civil.getWeekday r
          pure (r, g)) fun (r, g) => s!"{showFields r} {g}")
      | _ => none
  | "pwi" :: rest => do
      match ← ints rest with
      | [y, m, d, w] =>
        some (showCk (do
          let a ← Civil.civilNew .day y m d 0 0 0
          let b ← Civil.civilAdd .day a 1
          let r ← Civil.prevWeekday b w
          let g ← Civil.getWeekday r
          pure (r, g)) fun (r, g) => s!"{showFields r} {g}")
      | _ => none
  | _ => none

/-! ### fixed-offset names, POSIX-TZ strings, split/join -/

def optStr (o : Option Int) : String := match o with | some v => toString v | none => "U"

def showPosixTransition (t : Posix.Transition) : String :=
  let d := match t.date with
    | none => "U U U U"
    | some ⟨.J, a, _, _⟩ => s!"J {a} - -"
    | some ⟨.N, a, _, _⟩ => s!"N {a} - -"
    | some ⟨.M, a, b, c⟩ => s!"M {a} {b} {c}"
  d ++ " " ++ optStr t.time

def showPosix (r : Option Posix.TimeZone) : String :=
  match r with
  | none => "fail"
  | some z =>
    if z.dstAbbr.isEmpty then
      s!"ok {Bytes.toHex z.stdAbbr} {optStr z.stdOffset} -"
    else
      s!"ok {Bytes.toHex z.stdAbbr} {optStr z.stdOffset} {Bytes.toHex z.dstAbbr} {optStr z.dstOffset} {showPosixTransition z.dstStart} {showPosixTransition z.dstEnd}"

def miscOp (toks : List String) : Option String :=
  match toks with
  | ["fixname", off] => do
      let off ← off.toInt?
      some (showCk (Fixed.toName off) Bytes.toHex)
  | ["fixabbr", off] => do
      let off ← off.toInt?
      some (showCk (Fixed.toAbbr off) Bytes.toHex)
  | ["fixid", off] => do
      -- fixed_time_zone(off).name() loads (without data) to an equal zone and maps back to the offset
      let off ← off.toInt?
      let name := Fixed.toName off
      if name.flags.any then some (flagStr name.flags)
      else some (match Fixed.fromName name.val with
        | some v => s!"ok {v}"
        | none => "name-does-not-parse")
  | ["fixfrom", hex] => do
      let b ← Bytes.ofHex hex
      some (match Fixed.fromName b with | some v => toString v | none => "none")
  | ["posix", hex] => do
      let b ← Bytes.ofHex hex
      some (showPosix (Posix.parsePosixSpec b))
  | ["split", n, d, c, _rep] => do
      let n ← n.toInt?; let d ← d.toInt?; let c ← c.toInt?
      some (showCk (do
        let (sec, sub) ← Split.splitSeconds n d c
        let fs ← Split.subToFemto n d sub
        pure (sec, sub, fs)) fun (sec, sub, fs) => s!"{sec} {sub} {fs}")
  | "joinc" :: num :: lo :: hi :: sec :: _rep :: _optFs => do
      let num ← num.toInt?; let lo ← lo.toInt?; let hi ← hi.toInt?; let sec ← sec.toInt?
      some (match (if num == 1 then Split.joinSecondsRep lo hi sec else Split.joinCoarse num lo hi sec) with
            | some v => s!"ok {v}" | none => "false")
  | ["joinf", den, sec, fs] => do
      let den ← den.toInt?; let sec ← sec.toInt?; let fs ← fs.toInt?
      some (showCk (Split.joinFine den sec fs) fun v => s!"ok {v}")
  | _ => none

/-! ### zones -/

def showAbs (a : Tz.AbsLookup) : String :=
  s!"{showFields a.cs} {a.offset} {b2i a.isDst} {Bytes.toHex a.abbr}"

def kindStr : Tz.Kind → String
  | .unique => "UNIQUE" | .skipped => "SKIPPED" | .repeated => "REPEATED"

def showCivilLookup (c : Tz.CivilLookup) : String := s!"{kindStr c.kind} {c.pre} {c.trans} {c.post}"

def showTransitionOpt (o : Option (Fields × Fields)) : String :=
  match o with
  | none => "none"
  | some (f, t) => s!"{showFields f} {showFields t}"

def zoneOp (st : DState) (toks : List String) : Option (DState × String) :=
  match toks with
  | ["zone", id, mode, hex] => do
      let b ← Bytes.ofHex hex
      let cfg : Tz.LoadCfg := { skipPastEndOk := mode != "strict" }
      let r := Tz.load cfg b
      if r.flags.any then
        -- undefined behaviour during the load: the outputs are not comparable, but keep the zone
        -- (if one was produced) so that later ops on this id stay in step with the harness
        match r.val with
        | .ok z => some (st.set id { zone := z }, flagStr r.flags)
        | _ => some ({ st with zones := st.zones.filter (·.1 != id), failed := id :: st.failed }, flagStr r.flags)
      else match r.val with
        | .fail => some ({ st with zones := st.zones.filter (·.1 != id), failed := id :: st.failed }, "fail")
        | .tooLarge => some (st, "toolarge")
        | .ok z => some (st.set id { zone := z },
            s!"ok {z.transitions.size} {z.types.size} {Bytes.toHex z.futureSpec}")
  | ["fixzone", id, off] => do
      let off ← off.toInt?
      -- fixed_time_zone(off): FixedOffsetToName, then Load(name) -> ResetToBuiltinUTC(FixedOffsetFromName)
      let name := Fixed.toName off
      if name.flags.any then some (st, flagStr name.flags)
      else match Fixed.fromName name.val with
        | none => some (st, "fail")
        | some o =>
          let z := Tz.resetToBuiltinUTC o
          if z.flags.any then some (st, flagStr z.flags)
          else some (st.set id { zone := z.val }, s!"ok {Bytes.toHex name.val}")
  | ["namezone", id, hex] => do
      -- load_time_zone(name) for a name that needs no data: only fixed-offset names succeed
      let b ← Bytes.ofHex hex
      match Fixed.fromName b with
      | none => some (st, "fail")
      | some o =>
        let z := Tz.resetToBuiltinUTC o
        if z.flags.any then some (st, flagStr z.flags)
        else some (st.set id { zone := z.val }, s!"ok {o}")
  | ["bt", id, t] => do
      let t ← t.toInt?
      let e ← st.find id
      let r := Tz.breakTime e.zone e.btHint t
      some (st.set id { e with btHint := r.val.2 }, showCk r fun (a, _) => showAbs a)
  | "mt" :: id :: rest => do
      let e ← st.find id
      match ← ints rest with
      | [y, m, d, hh, mm, ss] =>
        let r := (Civil.civilNew .second y m d hh mm ss).bind' fun cs => Tz.makeTime e.zone e.mtHint cs
        some (st.set id { e with mtHint := r.val.2 }, showCk r fun (c, _) => showCivilLookup c)
      | _ => none
  | "cv" :: id :: rest => do
      let e ← st.find id
      match ← ints rest with
      | [y, m, d, hh, mm, ss] =>
        let r := (Civil.civilNew .second y m d hh mm ss).bind' fun cs => Tz.convert e.zone e.mtHint cs
        some (st.set id { e with mtHint := r.val.2 }, showCk r fun (c, _) => toString c)
      | _ => none
  | ["nt", id, t] => do
      let t ← t.toInt?
      let e ← st.find id
      some (st, showCk (Tz.nextTransition e.zone t) showTransitionOpt)
  | ["pt", id, t] => do
      let t ← t.toInt?
      let e ← st.find id
      some (st, showCk (Tz.prevTransition e.zone t) showTransitionOpt)
  | ["subtr", id, den, c] => do
      -- next/prev_transition of a sub-second time_point: the changes strictly after / strictly before the instant.
      -- With s = floor(instant): a change at T (a whole second) is after the instant iff T > s, and before it
      -- iff T < s + 1 when the instant has a fraction, T < s otherwise.
      -- A negative `den` stands for a floating-point time_point holding the exact value c/|den| s.
      let den ← den.toInt?; let c ← c.toInt?
      let den := if den < 0 then -den else den
      let e ← st.find id
      let r : Ck String := do
        let n ← SubQuery.nextSub e.zone den c
        let p ← SubQuery.prevSub e.zone den c
        pure s!"N {showTransitionOpt n} | P {showTransitionOpt p}"
      some (st, showCk r (fun s => s))
  | ["preds", id] => do
      -- which hypotheses of the table-level theorems does this zone satisfy? (model-only op)
      let e ← st.find id
      let z := e.zone
      let b (x : Bool) : String := if x then "1" else "0"
      some (st, s!"wf={b (TableCheck.tableWFb z)} sorted={b (TableCheck.civilSortedb z)} cols={b (TableCheck.civilColsb z)} sep={b (TableCheck.separatedb z)} inrange={b (TableCheck.timesInRangeb z)} room={b (TableCheck.firstEntryRoomb z)} tame={b (TameCheck.tameFullb z)} seam={b (TableCheck.tableWFb z && Seam.seamOKb z)} shiftroom={b (Seam.shiftRoomb z)}")
  | ["reload", id] =>
      -- the cache: a name loaded before is answered from the map, the data source is not consulted
      match st.find id with
      | some _ => some (st, "ok equal=1 factory=0")
      | none => if st.failed.contains id then some (st, "fail utc=1 factory=0") else none
  | [op, id] =>
      if op == "ntchain" || op == "ptchain" then do
        let e ← st.find id
        let fwd := op == "ntchain"
        let rec go (t : Int) (n : Nat) (h : UInt64) (hint : Nat) (fl : Flags) (fuel : Nat) : Nat × UInt64 × Flags :=
          match fuel with
          | 0 => (n, h, fl)
          | fuel + 1 =>
            let r := if fwd then Tz.nextTransition e.zone t else Tz.prevTransition e.zone t
            match r.val with
            | none => (n, h, fl.or r.flags)
            | some (f, to) =>
              let fs := [f.y, f.m, f.d, f.hh, f.mm, f.ss, to.y, to.m, to.d, to.hh, to.mm, to.ss]
              let ev : UInt64 := fs.foldl (fun acc x => acc * 1000003 + UInt64.ofNat ((x % 18446744073709551616).toNat)) 0
              let m := Tz.makeTime e.zone hint to
              go m.val.1.trans (n + 1) (h + (ev ^^^ (ev >>> 29)) * 0x9E3779B97F4A7C15) m.val.2 ((fl.or r.flags).or m.flags) fuel
        let (n, h, fl) := go (if fwd then i64min else i64max) 0 1469598103934665603 e.mtHint {} 5000
        if fl.any then some (st, flagStr fl) else some (st, s!"{n} {h.toNat}")
      else if op == "drop" then some ({ st with zones := st.zones.filter (·.1 != id) }, "ok")
      else none
  | ["hints", id, a, b] => do
      -- test control: force the hidden hint state of a zone (the harness cannot; it replays history)
      let a ← a.toNat?; let b ← b.toNat?
      let e ← st.find id
      some (st.set id { e with btHint := a, mtHint := b }, "ok")
  | _ => none


/-! ### loader state machine and name resolution -/

/-- a minimal valid TZif (version 1, one type: UTC) -/
def tinyZone : Bytes :=
  [84, 90, 105, 102, 0] ++ List.replicate 15 0 ++
  [0,0,0,0, 0,0,0,0, 0,0,0,0, 0,0,0,0, 0,0,0,1, 0,0,0,4] ++ [0,0,0,0, 0, 0] ++ [85, 84, 67, 0]

def schedName (tok : String) : Option Bytes :=
  match tok.toList with
  | 'u' :: '0' :: [] => some (Bytes.ofString "UTC0")
  | 'u' :: [] => some (Bytes.ofString "UTC")
  | 'f' :: rest => do
      let off ← (String.ofList rest).toInt?
      let n := Fixed.toName off
      if n.flags.any then none else some n.val
  | 'F' :: rest => some (Bytes.ofString ("Fixed/UTC" ++ String.ofList rest))
  | _ => some (Bytes.ofString ("blk:" ++ tok))

def schedWorld : Loader.World :=
  { data := fun n =>
      match (n.drop 4).headD 0 with
      | 118 => some tinyZone        -- 'v…': present and valid
      | 120 => some [0]             -- 'x…': present, rejected
      | _ => none }                 -- anything else: the factory returns nullptr

def classesOf (ids : List Loader.Ident) : List Nat :=
  let rec go (l : List Loader.Ident) (seen : List Loader.Ident) : List Nat :=
    match l with
    | [] => []
    | i :: rest =>
      if i == .utc then 0 :: go rest seen
      else match seen.idxOf? i with
        | some k => (k + 1) :: go rest seen
        | none => (seen.length + 1) :: go rest (seen ++ [i])
  go ids []

def loaderOp (st : DState) (toks : List String) : Option (DState × String) :=
  match toks with
  | ["sched", names, events] => do
      let names ← (names.splitOn ",").mapM schedName
      let evs ← (events.splitOn ",").mapM fun e =>
        match e.toList with
        | 'S' :: r => (String.ofList r).toNat?.map fun i => (true, i)
        | 'R' :: r => (String.ofList r).toNat?.map fun i => (false, i)
        | _ => none
      let w := schedWorld
      -- `S i`: thread i runs until it is blocked inside the factory or has returned;
      -- `R i`: the factory returns for thread i, which then runs to completion
      let s := evs.foldl (fun (s : Loader.LState) (ev : Bool × Nat) =>
        let i := ev.2
        if ev.1 then
          let s2 := Loader.step w (Loader.step w s i) i
          match (s2.threads[i]?.map (·.pc) : Option Loader.PC) with
          | some (Loader.PC.built _ _) => Loader.step w s2 i
          | _ => s2
        else Loader.run w s [i, i]) (Loader.initState names)
      let res := s.threads.map fun t => match t.pc with
        | .done ok id => (if ok then "1" else "0", id)
        | _ => ("?", Loader.Ident.utc)
      let cls := classesOf (res.map (·.2))
      let logS := s.log.map fun (τ, _) => toString τ
      some (st, s!"{String.intercalate "," (res.map (·.1))} {String.intercalate "," (cls.map toString)} {if logS.isEmpty then "-" else String.intercalate "," logS} {s.maxActive}")
  | ["stress", k, _iters, _seed] =>
      -- results of concurrent use equal those of a single-threaded replay (the theorem C13.result_is_sequential
      -- together with C14.history_irrelevant); the harness measures it on the real code
      some (st, s!"stress threads={k} differing=0")
  | ["mapgrow", _n] =>
      -- however many other names are loaded in between, a name stays in the map (C13.map_monotone, C20.cached_load)
      some (st, "calls=1,0,0 equal=1")
  | ["memcalls", hexbytes] => do
      -- one factory call for the first load of a fresh name whatever the bytes are worth, none for the second (C20.cached_load,
      -- C20.failed_stays_failed)
      let b ← Bytes.ofHex hexbytes
      let ok := match (Tz.load {} b).val with | .ok _ => true | _ => false
      some (st, s!"calls=1,0 ok={if ok then "11" else "00"} equal=1")
  | ["facnames", hexname] => do
      -- two loads of one name: UTC and fixed-offset names never reach the factory; any other name reaches it once, with
      -- exactly that name, and the second load is answered from the map (C20.factory_never_for_fixed, cached_load)
      let name ← Bytes.ofHex hexname
      let internal := Loader.isUtcName name || Loader.isFixedName name
      some (st, s!"calls={if internal then 0 else 1},0 same=1 equal=1")
  | ["racefixed", _k, _n, _b] =>
      -- racing first uses of one fixed offset: all equal (C13.same_name_same_identity on the loader model)
      some (st, "racefixed bad=0")
  | ["defaultzone"] =>
      -- a default-constructed time_zone, a failed load, "UTC0", offset 0 and the local fallback are one zone (C19.failure_is_utc)
      some (st, "default bad=0")
  | ["firstuse", _k] =>
      -- every way of obtaining UTC gives the one UTC zone, whichever thread is first (C13.result_is_sequential,
      -- C19.failure_is_utc); the harness measures it on the real code in a fresh process
      some (st, "firstuse bad=0")
  | ["fsfile", path, hex] => do
      let p ← Bytes.ofHex path
      let b ← Bytes.ofHex hex
      some ({ st with files := (p, b) :: st.files.filter (·.1 != p) }, "ok")
  | ["resolve", tzdir, tz, localtime, mode, namehex] => do
      let opt (s : String) : Option (Option Bytes) := if s == "~" then some none else (Bytes.ofHex s).map some
      let tzdir ← opt tzdir; let tz ← opt tz; let localtime ← opt localtime
      let name ← Bytes.ofHex namehex
      let name := if mode == "local" then Loader.localZoneName tz localtime else name
      -- load_time_zone(name)
      let finish (ok : Bool) (shown : Bytes) (z : Option Tz.Zone) : String :=
        let fp (z : Tz.Zone) (t : Int) : String :=
          let r := Tz.breakTime z 0 t
          s!"{r.val.1.offset}:{Bytes.toHex r.val.1.abbr}"
        match z with
        | some z => s!"{if mode == "local" then "L" else if ok then "1" else "0"} {Bytes.toHex shown} {fp z 0} {fp z 1700000000}"
        | none => s!"{if mode == "local" then "L" else "0"} {Bytes.toHex (Bytes.ofString "UTC")} 0:555443 0:555443"
      match Fixed.fromName name with
      | some 0 => some (st, finish true (Bytes.ofString "UTC") (some (Tz.resetToBuiltinUTC 0).val))
      | some off => some (st, finish true name (some (Tz.resetToBuiltinUTC off).val))
      | none =>
        if Loader.isLibcName name then some (st, "libc")
        else
          let path := Bytes.cstr (Loader.openPath name tzdir)
          match st.files.lookup path with
          | none => some (st, finish false [] none)
          | some bytes =>
            match (Tz.load {} bytes).val with
            | .ok z => some (st, finish true name (some z))
            | _ => some (st, finish false [] none)
  | _ => none


/-! ### format / parse -/

def showTm (t : Format.Tm) : String :=
  s!"{t.sec},{t.min},{t.hour},{t.mday},{t.mon},{t.year},{t.wday},{t.yday},{t.isdst}"

def parseTm (s : String) : Option Format.Tm :=
  match (s.splitOn ",").mapM String.toInt? with
  | some [a, b, c, d, e, f, g, h, i] => some ⟨a, b, c, d, e, f, g, h, i⟩
  | _ => none

def showSeg : Format.Seg → String
  | .lit b => "L" ++ Bytes.toHex b
  | .run r => "R" ++ Bytes.toHex r

/-- one entry of the strptime oracle table: spec:data:tmIn:consumed:tmOut (consumed -1 = NULL) -/
def parseSpEntry (s : String) : Option ((Bytes × Bytes × Format.Tm) × Option (Nat × Format.Tm)) :=
  match s.splitOn ":" with
  | [spec, data, tin, n, tout] => do
      let spec ← Bytes.ofHex spec; let data ← Bytes.ofHex data; let tin ← parseTm tin
      let n ← n.toInt?
      if n < 0 then some ((data, spec, tin), none)
      else do let tout ← parseTm tout; some ((data, spec, tin), some (n.toNat, tout))
  | _ => none

def fmtOp (st : DState) (toks : List String) : Option (DState × String) :=
  match toks with
  | ["subapi", n, d, c, _rep] => do
      -- lookup / convert / format of a time_point<duration<Rep, ratio<N, D>>> in UTC: split_seconds first
      let n ← n.toInt?; let d ← d.toInt?; let c ← c.toInt?
      let r : Ck (Fields × Bytes) := do
        let (sec, sub) ← Split.splitSeconds n d c
        let fs ← Split.subToFemto n d sub
        let utc ← Tz.resetToBuiltinUTC 0
        let (al, _) ← Tz.breakTime utc 0 sec
        let (tm, segs) ← Format.formatSegs (Bytes.ofString "%Y-%m-%d %H:%M:%E*S|%E15S|%E12f|%E3S|%s") al sec fs
        pure (al.cs, Format.render (fun _ _ => []) tm segs)
      some (st, showCk r fun (cs, txt) => s!"S {showFields cs} | {showFields cs} | {Bytes.toHex txt}")
  | ["subfloat", n, num, e, _rep] => do
      -- a time_point whose representation is floating point: num / 2^e ticks of n seconds (exactly representable);
      -- lookup and convert use the whole second at or below the instant
      let n ← n.toInt?; let num ← num.toInt?; let e ← e.toNat?
      let sec := (num * n) / (2 ^ e : Int)          -- floor: the divisor is positive
      let r : Ck Fields := do
        let utc ← Tz.resetToBuiltinUTC 0
        let (al, _) ← Tz.breakTime utc 0 sec
        pure al.cs
      some (st, showCk r fun cs => s!"S {showFields cs} | {showFields cs}")
  | ["subparse", num, lo, hi, _rep, hexin] => do
      -- the public parse() template into a time_point of whole seconds or coarser, in UTC:
      -- detail::parse, then join_seconds
      let num ← num.toInt?; let lo ← lo.toInt?; let hi ← hi.toInt?
      let inp ← Bytes.ofHex hexin
      let r := Parse.parse (fun _ _ _ => none) (Bytes.ofString "%Y-%m-%d %H:%M:%S") inp (Tz.resetToBuiltinUTC 0).val
      some (st, showCk r fun (res, _) => match res with
        | .fail => "false"
        | .ok sec _ =>
          match (if num == 1 then Split.joinSecondsRep lo hi sec else Split.joinCoarse num lo hi sec) with
          | some v => s!"ok {v}" | none => "false")
  | ["fmt", id, t, fs, hexfmt] => do
      let t ← t.toInt?; let fs ← fs.toInt?
      let f ← Bytes.ofHex hexfmt
      let e ← st.find id
      let r := (Tz.breakTime e.zone e.btHint t).bind' fun (al, _) => Format.formatSegs f al t fs
      let hint := (Tz.breakTime e.zone e.btHint t).val.2
      some (st.set id { e with btHint := hint }, showCk r fun (tm, segs) =>
        s!"F {showTm tm}" ++ String.join (segs.map fun sg => " " ++ showSeg sg))
  | "parse" :: id :: hexfmt :: hexin :: entries => do
      let f ← Bytes.ofHex hexfmt; let inp ← Bytes.ofHex hexin
      let e ← st.find id
      let table ← entries.mapM parseSpEntry
      let sp : Parse.Strptime := fun d spec tm =>
        match table.find? (fun en => en.1 == (d, spec, tm)) with
        | some en => en.2
        | none => none
      let r := Parse.parse sp f inp e.zone
      -- a strptime query the table does not answer: ask the comparer
      match r.val.2.spQueries.find? (fun q => !(table.any fun en => en.1 == q)) with
      | some (d, spec, tm) => some (st, s!"MISS {Bytes.toHex spec} {Bytes.toHex d} {showTm tm}")
      | none =>
        some (st, showCk r fun (res, _) => match res with
          | .fail => "fail"
          | .ok sec fsv => s!"ok {sec} {fsv}")
  | _ => none

def handle (st : DState) (line : String) : DState × String :=
  let toks := (line.trimAscii.toString.splitOn " ").filter (· ≠ "")
  match toks with
  | [] => (st, "")
  | _ =>
    match civilOp toks with
    | some r => (st, r)
    | none =>
      match miscOp toks with
      | some r => (st, r)
      | none =>
        match zoneOp st toks with
        | some (st', r) => (st', r)
        | none =>
          match loaderOp st toks with
          | some (st', r) => (st', r)
          | none =>
            match fmtOp st toks with
            | some (st', r) => (st', r)
            | none => (st, "bad-op")

partial def loop (hin : IO.FS.Stream) (hout : IO.FS.Stream) (st : DState) : IO Unit := do
  let line ← hin.getLine
  if line.isEmpty then return ()
  let (st', out) := handle st line
  hout.putStrLn out
  loop hin hout st'

def main : IO Unit := do
  let hin ← IO.getStdin
  let hout ← IO.getStdout
  loop hin hout {}
  hout.flush
