import Cctz.Model.Ck
import Cctz.Gen.Tables
import Cctz.Model.Civil
import Cctz.Spec.Gregorian
