// Per-operation observation of undefined behaviour.
//
// The harness is built with  g++ -fsanitize=undefined -fsanitize-recover=undefined
// and defines the __ubsan_handle_* entry points itself (they take precedence over the
// shared libubsan).  The stock runtime reports each source location only once per
// process, which would hide every later occurrence; these handlers see every one.
#ifndef VERIF_UB_H_
#define VERIF_UB_H_
#include <cstdint>
#include <cstdio>
#include <cstring>
#include <string>

namespace verif {
struct SrcLoc { const char* file; uint32_t line; uint32_t col; };
enum { UB_OVF = 1, UB_OOB = 2, UB_UNSET = 4, UB_OTHER = 8 };
extern volatile int ub_flags;
extern volatile const char* ub_file;
extern volatile uint32_t ub_line;
extern volatile const char* ub_what;
inline void ub_reset() { ub_flags = 0; ub_file = nullptr; ub_line = 0; ub_what = nullptr; }
inline void ub_note(int kind, void* data, const char* what) {
  if (ub_flags == 0 && data != nullptr) {
    const SrcLoc* l = static_cast<const SrcLoc*>(data);
    ub_file = l->file; ub_line = l->line; ub_what = what;
  }
  ub_flags = ub_flags | kind;
}
// "UB ovf oob @file:line(what)" or "" when nothing fired
inline std::string ub_string() {
  if (!ub_flags) return std::string();
  std::string s = "UB";
  if (ub_flags & UB_OVF) s += " ovf";
  if (ub_flags & UB_OOB) s += " oob";
  if (ub_flags & UB_UNSET) s += " unset";
  if (ub_flags & UB_OTHER) s += " other";
  s += " @";
  const char* f = const_cast<const char*>(ub_file);
  if (f) { const char* b = strrchr(f, '/'); s += (b ? b + 1 : f); }
  s += ":" + std::to_string(ub_line);
  if (ub_what) { s += "("; s += const_cast<const char*>(ub_what); s += ")"; }
  return s;
}
}  // namespace verif
#endif
