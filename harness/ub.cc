#include "ub.h"
namespace verif {
volatile int ub_flags = 0;
volatile const char* ub_file = nullptr;
volatile uint32_t ub_line = 0;
volatile const char* ub_what = nullptr;
}
using verif::ub_note;
extern "C" {
#define H3(name, kind) void __ubsan_handle_##name(void* d, void*, void*) { ub_note(kind, d, #name); } \
                       void __ubsan_handle_##name##_abort(void* d, void*, void*) { ub_note(kind, d, #name); }
#define H2(name, kind) void __ubsan_handle_##name(void* d, void*) { ub_note(kind, d, #name); } \
                       void __ubsan_handle_##name##_abort(void* d, void*) { ub_note(kind, d, #name); }
#define H1(name, kind) void __ubsan_handle_##name(void* d) { ub_note(kind, d, #name); } \
                       void __ubsan_handle_##name##_abort(void* d) { ub_note(kind, d, #name); }
H3(add_overflow, verif::UB_OVF)
H3(sub_overflow, verif::UB_OVF)
H3(mul_overflow, verif::UB_OVF)
H3(divrem_overflow, verif::UB_OVF)
H2(negate_overflow, verif::UB_OVF)
H3(shift_out_of_bounds, verif::UB_OVF)
H2(float_cast_overflow, verif::UB_OVF)
H2(out_of_bounds, verif::UB_OOB)
H3(pointer_overflow, verif::UB_OOB)
H2(type_mismatch_v1, verif::UB_OOB)      // null / misaligned / too-small object
H2(load_invalid_value, verif::UB_UNSET)  // bool / enum holding a value outside its type
H2(vla_bound_not_positive, verif::UB_OTHER)
H1(invalid_builtin, verif::UB_OTHER)
H1(nonnull_arg, verif::UB_OTHER)
H2(nonnull_return_v1, verif::UB_OTHER)
void __ubsan_handle_builtin_unreachable(void* d) { ub_note(verif::UB_OTHER, d, "unreachable"); fflush(stdout); _Exit(77); }
void __ubsan_handle_missing_return(void* d) { ub_note(verif::UB_OTHER, d, "missing_return"); fflush(stdout); _Exit(77); }
}
