// Line-protocol harness: answers the same operation lines as lean/Driver.lean by calling
// the real cctz code (compiled from /repo's current working tree) in-process.
#include <cinttypes>
#include <cstdint>
#include <cstdio>
#include <cstdlib>
#include <cstring>
#include <iostream>
#include <sstream>
#include <string>
#include <vector>

#include "cctz/civil_time.h"
#include "cctz/time_zone.h"
#include "ub.h"

using verif::ub_reset;
using verif::ub_string;

typedef std::vector<std::string> Toks;
static std::string out;  // result of the current op

static bool toI64(const std::string& s, int64_t* v) {
  if (s.empty()) return false;
  errno = 0;
  char* e = nullptr;
  long long x = strtoll(s.c_str(), &e, 10);
  if (errno || *e) return false;
  *v = x;
  return true;
}
static bool ints(const Toks& t, size_t from, size_t n, int64_t* v) {
  if (t.size() != from + n) return false;
  for (size_t i = 0; i < n; ++i) if (!toI64(t[from + i], &v[i])) return false;
  return true;
}
static bool intsAt(const Toks& t, size_t from, size_t n, int64_t* v) {
  if (t.size() < from + n) return false;
  for (size_t i = 0; i < n; ++i) if (!toI64(t[from + i], &v[i])) return false;
  return true;
}
template <typename CT> static std::string fieldsStr(const CT& c) {
  char b[200];
  snprintf(b, sizeof b, "%" PRId64 " %d %d %d %d %d", (int64_t)c.year(), c.month(), c.day(), c.hour(), c.minute(), c.second());
  return b;
}

// ---------------------------------------------------------------- civil time
template <typename CT> static bool civilT(const std::string& op, const Toks& t) {
  int64_t v[13];
  if (op == "new") {
    if (!ints(t, 2, 6, v)) return false;
    CT c(v[0], v[1], v[2], v[3], v[4], v[5]);
    out = fieldsStr(c);
  } else if (op == "add" || op == "sub") {
    if (!ints(t, 2, 7, v)) return false;
    CT c(v[0], v[1], v[2], v[3], v[4], v[5]);
    CT r = (op == "add") ? c + v[6] : c - v[6];
    out = fieldsStr(r);
    if (verif::ub_flags == 0) {
      // the other spellings of the same step must agree: compound assignment, n + c, and ++ / -- for single steps
      CT a1 = c; if (op == "add") a1 += v[6]; else a1 -= v[6];
      bool same = (a1 == r);
      if (op == "add") { CT a2 = v[6] + c; same = same && (a2 == r); }
      if (v[6] == 1) { CT a3 = c, a4 = c; if (op == "add") { ++a3; CT o = a4++; same = same && (o == c); } else { --a3; CT o = a4--; same = same && (o == c); } same = same && (a3 == r) && (a4 == r); }
      if (!same) out += " OPERATOR-FORMS-DISAGREE " + fieldsStr(a1);
    }
  } else if (op == "chain") {
    // chained steps: (c + n) + m, (c + n) - n, (c + n) - (c + m)
    if (!ints(t, 2, 8, v)) return false;
    CT c(v[0], v[1], v[2], v[3], v[4], v[5]);
    CT x = c + v[6];
    CT r1 = x + v[7];
    CT r2 = x - v[6];
    CT y = c + v[7];
    cctz::diff_t d = x - y;
    out = fieldsStr(r1) + " | " + fieldsStr(r2) + " | " + std::to_string((int64_t)d);
  } else if (op == "diff") {
    if (!ints(t, 2, 12, v)) return false;
    CT a(v[0], v[1], v[2], v[3], v[4], v[5]);
    CT b(v[6], v[7], v[8], v[9], v[10], v[11]);
    cctz::diff_t d = a - b;
    out = std::to_string((int64_t)d);
  } else {
    return false;
  }
  return true;
}
template <typename T> static bool convT(const std::string& u, const int64_t* v) {
#define CONVU(U) { U a(v[0], v[1], v[2], v[3], v[4], v[5]); T r(a); out = fieldsStr(r); return true; }
  if (u == "second") CONVU(cctz::civil_second)
  if (u == "minute") CONVU(cctz::civil_minute)
  if (u == "hour") CONVU(cctz::civil_hour)
  if (u == "day") CONVU(cctz::civil_day)
  if (u == "month") CONVU(cctz::civil_month)
  if (u == "year") CONVU(cctz::civil_year)
#undef CONVU
  return false;
}
template <typename A> static bool cmpT(const std::string& t2, const int64_t* v) {
  A a(v[0], v[1], v[2], v[3], v[4], v[5]);
#define CMPB(B) { B b(v[6], v[7], v[8], v[9], v[10], v[11]); \
    out = std::to_string((int)(a < b)) + " " + std::to_string((int)(a <= b)) + " " + std::to_string((int)(a == b)); \
    bool c1 = (a > b) == (b < a), c2 = (a >= b) == !(a < b), c3 = (a != b) == !(a == b); \
    if (!(c1 && c2 && c3)) out += " INCONSISTENT"; return true; }
  if (t2 == "second") CMPB(cctz::civil_second)
  if (t2 == "minute") CMPB(cctz::civil_minute)
  if (t2 == "hour") CMPB(cctz::civil_hour)
  if (t2 == "day") CMPB(cctz::civil_day)
  if (t2 == "month") CMPB(cctz::civil_month)
  if (t2 == "year") CMPB(cctz::civil_year)
#undef CMPB
  return false;
}
static cctz::weekday wdOf(int64_t w) {
  static const cctz::weekday k[] = {cctz::weekday::monday, cctz::weekday::tuesday, cctz::weekday::wednesday,
    cctz::weekday::thursday, cctz::weekday::friday, cctz::weekday::saturday, cctz::weekday::sunday};
  return k[((w % 7) + 7) % 7];
}
static int wdIdx(cctz::weekday w) {
  switch (w) {
    case cctz::weekday::monday: return 0; case cctz::weekday::tuesday: return 1;
    case cctz::weekday::wednesday: return 2; case cctz::weekday::thursday: return 3;
    case cctz::weekday::friday: return 4; case cctz::weekday::saturday: return 5;
    case cctz::weekday::sunday: return 6;
  }
  return -1;
}
static bool civilOp(const Toks& t) {
  const std::string& op = t[0];
  int64_t v[13];
  if (op == "new" || op == "add" || op == "sub" || op == "diff" || op == "chain") {
    if (t.size() < 2) return false;
    const std::string& tg = t[1];
    if (tg == "second") return civilT<cctz::civil_second>(op, t);
    if (tg == "minute") return civilT<cctz::civil_minute>(op, t);
    if (tg == "hour") return civilT<cctz::civil_hour>(op, t);
    if (tg == "day") return civilT<cctz::civil_day>(op, t);
    if (tg == "month") return civilT<cctz::civil_month>(op, t);
    if (tg == "year") return civilT<cctz::civil_year>(op, t);
    return false;
  }
  if (op == "conv") {
    if (t.size() != 9 || !ints(t, 3, 6, v)) return false;
    const std::string& t1 = t[1];
    if (t1 == "second") return convT<cctz::civil_second>(t[2], v);
    if (t1 == "minute") return convT<cctz::civil_minute>(t[2], v);
    if (t1 == "hour") return convT<cctz::civil_hour>(t[2], v);
    if (t1 == "day") return convT<cctz::civil_day>(t[2], v);
    if (t1 == "month") return convT<cctz::civil_month>(t[2], v);
    if (t1 == "year") return convT<cctz::civil_year>(t[2], v);
    return false;
  }
  if (op == "cmp") {
    if (t.size() != 15 || !ints(t, 3, 12, v)) return false;
    const std::string& t1 = t[1];
    if (t1 == "second") return cmpT<cctz::civil_second>(t[2], v);
    if (t1 == "minute") return cmpT<cctz::civil_minute>(t[2], v);
    if (t1 == "hour") return cmpT<cctz::civil_hour>(t[2], v);
    if (t1 == "day") return cmpT<cctz::civil_day>(t[2], v);
    if (t1 == "month") return cmpT<cctz::civil_month>(t[2], v);
    if (t1 == "year") return cmpT<cctz::civil_year>(t[2], v);
    return false;
  }
  if (op == "wd" || op == "yd") {
    if (!ints(t, 1, 6, v)) return false;
    cctz::civil_second c(v[0], v[1], v[2], v[3], v[4], v[5]);
    out = (op == "wd") ? std::to_string(wdIdx(cctz::get_weekday(c))) : std::to_string(cctz::get_yearday(c));
    return true;
  }
  if (op == "nwd" || op == "pwd") {
    if (!ints(t, 1, 4, v)) return false;
    cctz::civil_day c(v[0], v[1], v[2]);
    cctz::civil_day r = (op == "nwd") ? cctz::next_weekday(c, wdOf(v[3])) : cctz::prev_weekday(c, wdOf(v[3]));
    out = fieldsStr(r);
    return true;
  }
  if (op == "nwi" || op == "pwi") {
    // the idioms documented in civil_time.h: next_weekday(d - 1, wd) / prev_weekday(d + 1, wd)
    if (!ints(t, 1, 4, v)) return false;
    cctz::civil_day c(v[0], v[1], v[2]);
    cctz::civil_day r = (op == "nwi") ? cctz::next_weekday(c - 1, wdOf(v[3])) : cctz::prev_weekday(c + 1, wdOf(v[3]));
    out = fieldsStr(r) + " " + std::to_string(wdIdx(cctz::get_weekday(r)));
    return true;
  }
  return false;
}

#include "harness_ops.inc"

int main() {
  if (getenv("HARNESS_LINEBUF")) setvbuf(stdout, nullptr, _IOLBF, 0);
  std::string line;
  while (std::getline(std::cin, line)) {
    Toks t;
    { std::istringstream is(line); std::string w; while (is >> w) t.push_back(w); }
    if (t.empty()) { puts(""); continue; }
    out.clear();
    ub_reset();
    bool ok = civilOp(t) || extraOp(t);
    std::string ub = ub_string();
    if (!ok) puts("bad-op");
    else if (!ub.empty()) puts(ub.c_str());
    else puts(out.c_str());
  }
  fflush(stdout);
  return 0;
}
