#!/bin/sh
# MANIFEST.setup_cmd: build the Lean library (model, specification, proofs) and the model driver
# from files on disk only.  Offline; no lake update, no Mathlib.
set -e
cd "$(dirname "$0")"
python3 gen/extract.py || true
cd lean
lake build Cctz cctz_model
